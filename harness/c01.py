"""C01 — the Python segmenters only insert word boundaries between units."""
import random
import sys
from fractions import Fraction

from common import load_corpus, Check, correspond, decode_result, call_impl, finish_proof_failures, text2j, j2text, j2s, EXN
import gens
import seplib as sl
import c09
import c10

from wordseg.algos import tp, puddle, dibs, baseline
from wordseg.separator import Separator


def units_of(text):
    return [l.split() for l in text]


def aligned_oracle(text_units, loose=False):
    def f(out):
        if out[0] != 'ok':
            return 'valid input raised ' + out[1]
        o = out[1]
        if loose:
            o = [x[:-1] if x.endswith(' ') else x for x in o]
        return gens.aligned(text_units, o)
    return f


# ---- TP ----

def tp_case(text_units, train_units, ti, di, family):
    c = c09.make_case(None, text_units, train_units, ti, di, family)
    c['oracle'] = lambda out: aligned_oracle(text_units)(out)
    c['site'] = 'tp.segment'

    def classes(out):
        cl = set()
        n = sum(len(u) for u in text_units) + max(0, len(text_units) - 1)
        if n == 0:
            cl.add('empty_text')
        return cl
    c['classes'] = classes
    return c


# ---- PUDDLE ----

def puddle_case(text_units, train_units, window, byfreq, nfolds, family, njobs=1):
    text = gens.lines(text_units)
    train = None if train_units is None else gens.lines(train_units)
    valid = window >= 1 and (train is not None and len(train) > 0 or 1 <= nfolds <= len(text)) and all(text_units)

    def impl():
        return call_impl(lambda: list(puddle.segment(list(text), train_text=None if train is None else list(train),
                                                     window=window, by_frequency=byfreq, nfolds=nfolds, njobs=njobs)))
    return dict(op=1101, arg=[text2j(text), [] if train is None else [text2j(train)], window, int(byfreq), nfolds],
                site='puddle.segment', desc={'text': text, 'train': train, 'window': window, 'by_frequency': byfreq, 'nfolds': nfolds, 'njobs': njobs, 'family': family},
                impl=impl, dec=lambda w: decode_result(w, j2text),
                oracle=aligned_oracle(text_units) if valid else None,
                nontrivial=lambda m: m[0] == 'raise' or any(' ' in u for u in m[1]))


# ---- DiBS ----

def dibs_case(rng, family):
    fam = rng.choice(['ascii', 'multi', 'ipa', 'sepfrag'])
    phones = sl.PHONES[fam][:rng.randint(2, 6)]
    sep = rng.choice([(' ', ';esyll', ';eword'), ('_', ';esyll', ';eword'), (' ', None, ';eword'), ('_', '=', '@@'),
                      ('_', None, ' '), ('_', '=', ';e w'), ('_', None, 'w')])      # a word separator with a space, or spelled by units
    level = rng.choice(['phone', 'syllable'])
    if sep[1] is None:
        level = 'phone'
    lexi = [sl.rand_tree(rng, phones, nwords=1, maxsyll=2, maxphones=2)[0] for _ in range(rng.randint(2, 5))]
    train_trees = [[rng.choice(lexi) for _ in range(rng.randint(1, 4))] for _ in range(rng.randint(1, 6))]
    if not all(sl.tree_ok(t, sep) for t in train_trees):
        return None
    test_trees = train_trees if rng.random() < 0.5 else [[rng.choice(lexi) for _ in range(rng.randint(1, 4))] for _ in range(rng.randint(1, 5))]
    r = rng.random()
    if r < 0.3:
        # test words never seen in training, over the whole phone family (units and diphones unseen in training),
        # mixed with known words at either side
        test_trees = [list(t) for t in test_trees]
        for _ in range(rng.randint(1, 3)):
            extra = sl.rand_tree(rng, sl.PHONES[fam], nwords=1, maxsyll=2, maxphones=3)[0]
            utt = [rng.choice(lexi) for _ in range(rng.randint(0, 2))]
            utt.insert(rng.randint(0, len(utt)), extra)
            test_trees.insert(rng.randint(0, len(test_trees)), utt)
        family += '-unseen'
    elif r < 0.4:
        # a test text none of whose units occurs in the training text
        other = [p for p in sl.PHONES[fam] if p not in phones] or ['zz', 'q']
        test_trees = [sl.rand_tree(rng, other, maxsyll=2, maxphones=2) for _ in range(rng.randint(1, 3))]
        family += '-disjoint'
    test_units = [[u for w in t for u in c10.units_of_word(w, level)] for t in test_trees]
    if ' ' not in sep[2] and rng.random() < 0.3:
        # a unit of the text to segment spelled like the word separator of the TRAINING text (or containing it): a unit
        # like any other
        k = rng.randrange(len(test_units))
        test_units[k] = list(test_units[k])
        test_units[k].insert(rng.randint(0, len(test_units[k])), rng.choice([sep[2], sep[2] + 'a', 'a' + sep[2]]))
        family += '-unit-like-wordsep'
    kind = rng.choice(c10.KINDS)
    thr = Fraction(rng.randint(0, 8), 8)
    pwb = rng.choice([None, Fraction(0), Fraction(1, 4), Fraction(1)])
    c = c10.make_case(train_trees, sep, 'padded' if sep[0] == ' ' else 'compact', level, test_units, kind, thr, pwb, family)
    has_diphone = any(len([u for w in t for u in c10.units_of_word(w, level)]) > 1 for t in train_trees)

    def oracle(out):
        if not has_diphone:
            return None
        if out[0] != 'ok':
            return 'training raised ' + out[1]
        return aligned_oracle(test_units)(out[1][1])
    c['oracle'] = oracle
    c['classes'] = None
    return c


# ---- baseline ----

def draws_for(seed, n):
    r = random.Random(seed)
    return [Fraction(r.random()) for _ in range(n)]


def baseline_case(text_units, p, seed, family, raw_text=None):
    text = raw_text if raw_text is not None else gens.lines(text_units)
    ntok = sum(len(l.strip().split(' ')) for l in text)
    draws = draws_for(seed, ntok + 3)
    isf = isinstance(p, float)
    pq = Fraction(p) if not isinstance(p, str) else Fraction(0)

    def impl():
        def f():
            random.seed(seed)
            out = list(baseline.segment(list(text), p))
            nxt = random.random()
            return out, nxt
        return call_impl(f)

    def dec(w):
        def g(v):
            return [j2s(x) for x in v[0]], v[1]
        return decode_result(w, g)

    def eq(m, i):
        if m[0] != i[0]:
            return False
        if m[0] == 'raise':
            return m[1] == i[1]
        # same outputs and the same position in the random stream afterwards
        return m[1][0] == i[1][0] and Fraction(i[1][1]) == draws[len(draws) - m[1][1]]

    def oracle(out):
        if raw_text is not None or not isf or not (0 <= p <= 1):
            return None
        if out[0] != 'ok':
            return 'valid probability raised ' + out[1]
        o = out[1][0]
        bad = aligned_oracle(text_units, loose=True)((out[0], o))
        if bad:
            return bad
        if p == 0.0 and any(' ' in x for x in o):
            return 'probability 0 placed a boundary'
        if p == 1.0 and any(x != ''.join(u + ' ' for u in us) for x, us in zip(o, text_units)):
            return 'probability 1 did not place a boundary after every unit'
        return None
    return dict(op=101, arg=[text2j(text), int(isf), [pq.numerator, pq.denominator], [[d.numerator, d.denominator] for d in draws]],
                site='baseline.segment', desc={'text': text, 'probability': repr(p), 'seed': seed, 'family': family},
                impl=impl, dec=dec, eq=eq, oracle=oracle,
                nontrivial=lambda m: m[0] == 'raise' or any(' ' in u for u in m[1][0]))


ORACLE_SEPS = [(' ', ';esyll', ';eword'), ('_', ';esyll', ';eword'), ('_', None, ';eword'), (' ', None, ';eword'),
               (None, ';esyll', ';eword'), ('_', '=', '@@'), ('/', '=', '@@'), ('·', '‖', '§§'), ('p', 's', 'w')]


def rand_probability(rng):
    """a float in [0,1]: the extremes, dyadic and decimal fractions, uniform draws, values next to the extremes"""
    k = rng.randint(0, 9)
    if k == 0:
        return 0.0
    if k == 1:
        return 1.0
    if k == 2:
        return rng.randint(0, 8) / 8.0
    if k == 3:
        return rng.randint(0, 100) / 100.0
    if k == 4:
        return rng.choice([5e-324, 1e-12, 1e-3, 1 - 1e-3, 1 - 2.0 ** -53, 2.0 ** -53])
    return rng.random()


def baseline_oracle_case(rng, text_units, seed, family):
    fam = rng.choice(['ascii', 'ipa', 'multi'])
    sep = rng.choice(ORACLE_SEPS)
    level = 'phone' if sep[1] is None else 'syllable' if sep[0] is None else rng.choice(['phone', 'syllable', 'syllable'])
    trees = [sl.rand_tree(rng, sl.PHONES[fam]) for _ in range(rng.randint(1, 4))]
    if not all(sl.tree_ok(t, sep) for t in trees):
        trees = [sl.rand_tree(rng, sl.PHONES['ascii']) for _ in range(rng.randint(1, 4))]
    otext = [sl.render(t, sep, 'padded' if sep[0] == ' ' else 'compact') for t in trees]
    text = gens.lines(text_units)
    ntok = sum(len(l.strip().split(' ')) for l in text)
    draws = draws_for(seed, ntok + 3)
    nw = sum(len(t) for t in trees)
    nu = sum(len(c10.units_of_word(w, level)) for t in trees for w in t)

    def impl():
        def f():
            random.seed(seed)
            return list(baseline.segment_oracle(list(text), list(otext), oracle_separator=Separator(*sep), oracle_level=level))
        return call_impl(f)

    def dec(w):
        return decode_result(w[1], lambda v: [j2s(x) for x in v[0]])

    def oracle(out):
        if out[0] != 'ok':
            return 'oracle mode raised ' + out[1]
        bad = aligned_oracle(text_units, loose=True)(out)
        if bad:
            return bad
        # the probability is words / units of the oracle text: replay the draws
        p = Fraction(nw, nu)
        exp, k = [], 0
        for us in text_units:
            s = ''
            for u in us:
                s += u + (' ' if draws[k] < p else '')
                k += 1
            exp.append(s)
        if exp != out[1]:
            return 'oracle segmentation does not use probability words/units = %s' % p
        return None
    return dict(op=102, arg=[text2j(text), text2j(otext), sl.sepj(sep), ['phone', 'syllable', 'word'].index(level),
                             [[d.numerator, d.denominator] for d in draws]],
                site='baseline.segment_oracle', desc={'text': text, 'oracle_text': otext, 'sep': sep, 'level': level, 'seed': seed, 'family': family},
                impl=impl, dec=dec, oracle=oracle, nontrivial=lambda m: m[0] == 'raise' or any(' ' in u for u in m[1]))


def main():
    ck = Check('C01')
    failures = ck.prove()
    rng = ck.rng
    cases = []
    scale = 10 if ck.thorough else 1
    for c in load_corpus('C01'):
        if c['algo'] == 'tp':
            cases.append(tp_case(c['text'], None, c['ti'], c['di'], 'corpus'))
    alphas = ['ascii1', 'prefixy', 'ipa', 'marker']
    texts = []
    for tu in gens.exhaustive_texts(['a', 'b'], 4 if ck.thorough else 3, 3):
        texts.append((tu, 'exhaustive-ab'))
    for tu in gens.exhaustive_texts(['U', 'B'], 3, 2):
        texts.append((tu, 'exhaustive-UB'))
    for al in alphas:
        for tu in gens.degenerate_texts(gens.ALPHABETS[al]):
            texts.append((tu, 'degenerate-' + al))
    for k in range(150 * scale):
        al = alphas[k % 4]
        sub = rng.sample(gens.ALPHABETS[al], min(len(gens.ALPHABETS[al]), rng.randint(2, 5)))
        texts.append((gens.random_text(rng, sub, nutts=rng.randint(1, 12))[0], 'random-' + al))
    wide = gens.ALPHABETS['wide']
    for k in range(3 * scale):
        texts.append((gens.random_text(rng, wide, nutts=rng.randint(5, 30), lex=[[rng.choice(wide) for _ in range(rng.randint(1, 3))] for _ in range(40)])[0], 'random-wide'))
    for tu, fam in texts:
        # TP: all six modes on small texts, one random mode otherwise
        modes = [(a, b) for a in range(2) for b in range(3)] if fam.startswith(('exhaustive', 'degenerate')) else [(rng.randint(0, 1), rng.randint(0, 2))]
        for ti, di in modes:
            k = rng.randint(0, 5)
            alpha = sorted({u for us in tu for u in us})
            if k <= 1:
                tr = None
            elif k == 2:
                tr = tu
            elif k == 3:
                tr = gens.random_text(rng, ['a', 'b', 'U'])[0]
            elif k == 4:
                # same alphabet as the text: the test bigrams are partly seen, partly unseen in training
                tr = gens.random_text(rng, alpha)[0]
            else:
                # partial overlap: a subset of the text's alphabet plus foreign units
                tr = gens.random_text(rng, rng.sample(alpha, rng.randint(1, len(alpha))) + rng.sample(['a', 'q', 'ʌ', 'xy'], rng.randint(0, 2)))[0]
            ck.count('tp_train:' + ['none', 'none', 'same_text', 'abU', 'same_alphabet', 'overlapping_alphabet'][k])
            cases.append(tp_case(tu, tr, ti, di, fam))
        # PUDDLE
        n = len(tu)
        for _ in range(2):
            longest = max(len(us) for us in tu)
            window = rng.choice([1, 2, 2, 3, 4, 5, 8, longest, longest + 1, longest + rng.randint(2, 30)])
            ck.count('puddle_window:' + ('>longest_utterance' if window > longest else '>=5' if window >= 5 else str(window)))
            byfreq = rng.random() < 0.5
            if rng.random() < 0.3:
                cases.append(puddle_case(tu, gens.random_text(rng, sorted({u for us in tu for u in us}) or ['a'])[0], window, byfreq, 5, fam))
            else:
                cases.append(puddle_case(tu, None, window, byfreq, rng.randint(1, n), fam))
        # baseline
        p = rand_probability(rng)
        cases.append(baseline_case(tu, p, rng.choice([0, 1, 2**32 - 1, 2**64 + 5, rng.randint(0, 10**6), rng.randint(0, 10**6)]), fam))
        if rng.random() < 0.3:
            c = baseline_oracle_case(rng, tu, rng.randint(0, 10**6), fam)
            ck.count('oracle_level:' + c['desc']['level'])
            ck.count('oracle_sep:' + repr(c['desc']['sep']))
            cases.append(c)
    # PUDDLE: every pair (fold count, job count) up to 6 x 4 on one text (jobs that do not divide the folds, more jobs than folds)
    tu12 = [[rng.choice(['a', 'b', 'uː', 'ng']) for _ in range(rng.randint(1, 5))] for _ in range(12)]
    for nfolds in range(1, 7):
        for njobs in range(2, 5):
            cases.append(puddle_case(tu12, None, 2, nfolds % 2 == 0, nfolds, 'puddle-folds-x-jobs', njobs=njobs))
    # very long utterances (thousands of units, more than a thousand words found): no segmenter may depend on the depth
    # of the call stack
    long_words = [['a', 'b'], ['c'], ['b', 'a', 'c']]
    long_utt = [u for i in range(1300) for u in long_words[i % 3]]
    # (PUDDLE: the extracted model is too slow at this size; the implementation's answer is judged by the alignment oracle)
    for c in (puddle_case([long_utt, ['a', 'b', 'c']], [['a', 'b'], ['c'], ['b', 'a', 'c'], ['a', 'b'], ['c'], ['b', 'a', 'c']], 1, False, 5, 'long-utterance'),
              puddle_case([long_utt[:2400], ['c', 'a', 'b']], None, 2, True, 1, 'long-utterance')):
        out = c['impl']()
        why = ('puddle.segment raised ' + out[1]) if out[0] != 'ok' else c['oracle'](out)
        ck.case('long-utterance-puddle:%d' % len(c['desc']['text'][0]), True, sample={'units': len(c['desc']['text'][0].split()), 'family': 'long-utterance'})
        ck.count('family:long-utterance')
        if why:
            d = dict(c['desc'])
            d['text'] = [t[:60] + ' ... (%d units)' % len(t.split()) for t in d['text']]
            ck.violation({'site': 'puddle.segment', 'input': d}, 'property fails on the implementation: ' + why)
    cases.append(tp_case([long_utt, ['a', 'b']], None, 0, 0, 'long-utterance'))
    cases.append(tp_case([long_utt], [['a', 'b', 'c'], ['b', 'a', 'c', 'c']], 1, 2, 'long-utterance'))
    cases.append(baseline_case([long_utt], Fraction(1, 3), 5, 'long-utterance'))
    # DiBS
    for k in range(250 * scale):
        c = dibs_case(rng, 'dibs-trees')
        if c:
            cases.append(c)
    # malformed stream (correspondence only)
    for p in (1, -0.5, 1.5, 'a', True):
        cases.append(baseline_case([['a', 'b']], p, 1, 'malformed-probability'))
    cases.append(baseline_case(None, 0.5, 2, 'malformed-spacing', raw_text=['a  b', ' a b ', '', 'a\tb c']))
    cases.append(puddle_case([['a', 'b'], ['c']], None, 2, False, 3, 'malformed-nfolds'))
    cases.append(puddle_case([['a', 'b'], ['c']], None, 2, False, 0, 'malformed-nfolds'))
    for c in cases:
        ck.count('family:' + c['desc']['family'])
    correspond(ck, cases)
    n, problems = ck.coq_recheck()
    finish_proof_failures(ck, failures + problems)
    return ck.finish(
        rule='texts: exhaustive over {a,b} and {U,B} (small scope), degenerate shapes, random planted-lexicon corpora over ascii/prefixy/ipa/marker/wide alphabets; '
             'each through TP (2 thresholds x 3 dependencies x optional training text), PUDDLE (window 1-8, the longest utterance and beyond x by_frequency x nfolds 1..len or a training text), '
             'TP training text: none / the text / over {a,b,U} / over the text\'s alphabet / over an overlapping alphabet; '
             'baseline (p: 0, 1, k/8, k/100, uniform draws, values next to 0 and 1, with the seeded stream re-drawn for the model, and oracle mode over 9 separator triples x phone/syllable level), '
             'plus DiBS on tagged training trees (3 types x thresholds x pwb x level; test text from the training lexicon, with unseen words, or over unseen units only). Oracle: one output per input utterance, each the input units with spaces at unit boundaries only. '
             'Non-trivial = a boundary placed or an error.')


if __name__ == '__main__':
    sys.exit(main())
