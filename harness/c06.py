"""C06 — evaluation refuses inconsistent inputs: every single-edit corruption of
consistent triples, through evaluate, summary and compute_class_labels."""
import sys

from common import load_corpus, Check, correspond, decode_result, call_impl, finish_proof_failures, text2j
import evalgen as eg
import gens
import pipeline
from c05 import dec_scores, impl_eval, eq_scores

from wordseg import evaluate as ev


def despace(s):
    return s.replace(' ', '')


def consistent(text, gold):
    t = [x for x in text if x.strip()]
    g = [x for x in gold if x.strip()]
    return len(t) == len(g) and all(despace(a) == despace(b) for a, b in zip(t, g))


def on_grid(words, units):
    """every word boundary of `words` is a unit boundary of `units`"""
    grid = set()
    acc = 0
    for u in units.split():
        acc += len(u)
        grid.add(acc)
    acc = 0
    for w in words.split():
        acc += len(w)
        if acc not in grid:
            return False
    return True


def units_consistent(words, units, skip_blank):
    if skip_blank:
        words = [x for x in words if x.strip()]
        units = [x for x in units if x.strip()]
    return (len(words) == len(units)
            and all(despace(a) == despace(b) and on_grid(a, b) for a, b in zip(words, units)))


def expect_evaluate(text, gold, units):
    ok = consistent(text, gold)
    if units is not None:      # an empty units text is a units text (fix f716c25: `if units:` took it for none at all)
        ok = ok and units_consistent(text, units, True) and units_consistent(gold, units, True)
    return ok


def edits(rng, lines, limit):
    """single-edit corruptions of a list of utterances"""
    out = []
    n = len(lines)
    # the substituted / inserted character: foreign ('z') or, half of the time, one of the text's own characters (the
    # result may then be consistent again, e.g. a character replaced by itself or 'a' inserted next to an 'a' that the
    # other side also has: the expectation is computed from the definition by the callers)
    own = sorted({c for l in lines for c in l if not c.isspace()}) or ['a']

    def ch():
        return ('z', '') if rng.random() < 0.5 else (rng.choice(own), '-own')
    for i in range(n):
        out.append(('drop-utt', lines[:i] + lines[i + 1:]))
        out.append(('dup-utt', lines[:i + 1] + lines[i:]))
        if i + 1 < n:
            out.append(('swap-utt', lines[:i] + [lines[i + 1], lines[i]] + lines[i + 2:]))
        s = lines[i]
        for p in range(len(s) + 1):
            if p < len(s):
                out.append(('drop-char', lines[:i] + [s[:p] + s[p + 1:]] + lines[i + 1:]))
                c, tag = ch()
                out.append(('subst-char' + tag, lines[:i] + [s[:p] + c + s[p + 1:]] + lines[i + 1:]))
                if p + 1 < len(s):
                    out.append(('transpose', lines[:i] + [s[:p] + s[p + 1] + s[p] + s[p + 2:]] + lines[i + 1:]))
            c, tag = ch()
            out.append(('insert-char' + tag, lines[:i] + [s[:p] + c + s[p:]] + lines[i + 1:]))
            out.append(('insert-space', lines[:i] + [s[:p] + ' ' + s[p:]] + lines[i + 1:]))
    # a white space character other than U+0020 (tab, line feed, no-break space, em space) inserted anywhere,
    # in particular next to a space and at the edges of an utterance: it is a character like any other for
    # the comparison "equal once spaces are removed"
    for i in range(n):
        s = lines[i]
        for p in sorted({0, len(s)} | {q for q in range(len(s) + 1) if (q < len(s) and s[q] == ' ') or (q > 0 and s[q - 1] == ' ')} | {rng.randint(0, len(s))}):
            ws = rng.choice(['\t', '\n', '\xa0', '\u2003'])
            out.append(('insert-unicode-space', lines[:i] + [s[:p] + ws + s[p:]] + lines[i + 1:]))
    # content moved across a line break: the joined corpus is unchanged, the utterances are not
    moved = []
    for i in range(n - 1):
        a, b = lines[i].split(), lines[i + 1].split()
        if len(a) > 1:
            moved.append(('move-word-down', lines[:i] + [' '.join(a[:-1]), ' '.join([a[-1]] + b)] + lines[i + 2:]))
        if len(b) > 1:
            moved.append(('move-word-up', lines[:i] + [' '.join(a + [b[0]]), ' '.join(b[1:])] + lines[i + 2:]))
    if len(out) > limit:
        out = rng.sample(out, limit)
    return out + moved


def case_evaluate(text, gold, units, family):
    want = expect_evaluate(text, gold, units)

    def oracle(out):
        if want and out[0] != 'ok':
            return 'consistent input rejected with ' + out[1]
        if not want and out != ('raise', 'ValueError'):
            return 'inconsistent input not rejected with ValueError: %r' % (out[0] if out[0] == 'ok' else out[1])
        return None
    return dict(op=501, arg=[text2j(text), text2j(gold), [] if units is None else [text2j(units)]],
                site='evaluate.evaluate', desc={'text': text, 'gold': gold, 'units': units, 'family': family},
                impl=lambda: impl_eval(text, gold, units), dec=dec_scores, eq=eq_scores, oracle=oracle,
                nontrivial=lambda m: m[0] == 'raise')


def case_summary(text, gold, family):
    want = len(text) == len(gold) and all(despace(a) == despace(b) for a, b in zip(text, gold))

    def oracle(out):
        if want and out[0] != 'ok':
            return 'consistent input rejected with ' + out[1]
        if not want and out != ('raise', 'ValueError'):
            return 'inconsistent input not rejected with ValueError'
        return None

    def impl():
        r = call_impl(ev.summary, list(text), list(gold))
        if r[0] == 'ok':
            return ('ok', [list(r[1][k].items()) for k in ('over', 'under', 'mis', 'correct')])
        return r

    def dec(w):
        return decode_result(w, lambda v: [[(''.join(map(chr, k)), c) for k, c in cat] for cat in v])
    return dict(op=1201, arg=[text2j(text), text2j(gold)], site='evaluate.summary',
                desc={'text': text, 'gold': gold, 'family': family}, impl=impl, dec=dec, oracle=oracle,
                nontrivial=lambda m: m[0] == 'raise')


def case_labels(words, units, family):
    want = units_consistent(words, units, False)

    def oracle(out):
        if want and out[0] != 'ok':
            return 'consistent input rejected with ' + out[1]
        if not want and out != ('raise', 'ValueError'):
            return 'inconsistent input not rejected with ValueError'
        if want:
            ref = eg.labels_of(words, units)
            if ref is not None and list(out[1]) != ref:
                return 'labels %r differ from the definition %r' % (out[1], ref)
        return None

    def impl():
        r = call_impl(ev.compute_class_labels, list(words), list(units))
        if r[0] == 'ok':
            return ('ok', [int(x) for x in r[1]])
        return r
    return dict(op=502, arg=[text2j(words), text2j(units)], site='evaluate.compute_class_labels',
                desc={'words': words, 'units': units, 'family': family}, impl=impl,
                dec=decode_result, oracle=oracle, nontrivial=lambda m: True)


def main():
    ck = Check('C06')
    failures = ck.prove()
    rng = ck.rng
    cases = []
    for c in load_corpus('C06'):
        cases.append(case_evaluate(c['text'], c['gold'], c.get('units'), 'corpus'))
    ntriples = 60 if ck.thorough else 14
    per = 400 if ck.thorough else 40
    alphas = [['a', 'b'], ['a', 'b', 'ab', 'ba'], ['uː', 'dʒ', 'ʌ']]
    for k in range(ntriples):
        text, gold, units = eg.random_triple(rng, alphas[k % 3], nutts=rng.randint(1, 3), maxunits=5)
        cases.append(case_evaluate(text, gold, units, 'consistent'))
        cases.append(case_evaluate(text, gold, None, 'consistent'))
        cases.append(case_summary(text, gold, 'consistent'))
        cases.append(case_labels(text, units, 'consistent'))
        # spacing is irrelevant, blank lines are ignored
        rt = [eg.respace(rng, t) for t in text]
        rg = [eg.respace(rng, g) for g in gold]
        cases.append(case_evaluate(rt, rg, None, 'respaced'))
        cases.append(case_evaluate(rt, rg, units, 'respaced'))
        cases.append(case_summary(rt, rg, 'respaced'))
        bt = eg.interleave_blank(rng, text)
        bg = eg.interleave_blank(rng, gold)
        cases.append(case_evaluate(bt, bg, None, 'blank-lines'))
        cases.append(case_evaluate(bt, bg, units, 'blank-lines'))
        cases.append(case_evaluate(text, gold, eg.interleave_blank(rng, units), 'blank-lines'))
        for which in ('text', 'gold', 'units'):
            base = {'text': text, 'gold': gold, 'units': units}
            for name, corrupted in edits(rng, base[which], per):
                tr = dict(base)
                tr[which] = corrupted
                fam = 'edit-%s-%s' % (which, name)
                cases.append(case_evaluate(tr['text'], tr['gold'], tr['units'], fam))
                if which != 'units':
                    # without units only evaluate's own comparison can refuse the pair
                    cases.append(case_evaluate(tr['text'], tr['gold'], None, fam))
                    cases.append(case_summary(tr['text'], tr['gold'], fam))
                if which != 'gold':
                    cases.append(case_labels(tr['text'], tr['units'], fam))
    # the toolkit accepts its own output (coq/Pipeline/Proofs.v): the answers of the real segmenters against a gold
    # that is another segmentation of the same units, with and without the prepared text as units text
    for k in range(12 if ck.thorough else 4):
        tu, _ = gens.random_text(rng, gens.ALPHABETS[['ascii1', 'prefixy', 'ipa'][k % 3]], nutts=rng.randint(1, 5))
        prepared, outs = pipeline.segmenter_outputs(rng, tu)
        pgold = pipeline.other_segmentation(tu)
        for name, out in outs:
            cases.append(case_evaluate(out, pgold, prepared, 'pipeline-' + name))
            cases.append(case_evaluate(out, pgold, None, 'pipeline-' + name))
            cases.append(case_summary(out, pgold, 'pipeline-' + name))
    for c in cases:
        ck.count('family:' + c['desc']['family'])
    correspond(ck, cases)
    n, problems = ck.coq_recheck()
    finish_proof_failures(ck, failures + problems)
    return ck.finish(
        rule='%d consistent random triples (text, gold, units) and all their single-edit corruptions (drop/duplicate/swap utterance; '
             'drop/insert/substitute (a foreign character or one of the text\'s own) /transpose character and insert space at every position; sampled to %d per list) applied to text, gold, '
             'units in turn, through evaluate (with and without units), summary and compute_class_labels; respaced and blank-line variants; the answers of the real TP, PUDDLE and baseline segmenters scored against another segmentation of the same units (the toolkit accepts its own output). '
             'Expectation computed from the definition of consistency, not from how the case was built. Non-trivial = rejected input.'
             % (ntriples, per))


if __name__ == '__main__':
    sys.exit(main())
