#!/bin/bash
# Build the whole Coq development (full .vo), extract the models, compile the driver.
set -e
cd "$(dirname "$0")"
exec 9>/verif/.build.lock
flock 9
cd coq
[ -f Makefile ] && [ Makefile -nt _CoqProject ] || coq_makefile -f _CoqProject -o Makefile
# -k: a proof file that no longer checks must not prevent the other properties from being checked;
# the property files that depend on it fail in their own check
status=ok
timeout 3000 make -k -j16 "$@" > /verif/.build.log 2>&1 || { status=partial; grep -B2 -A12 "^Error\|Error:" /verif/.build.log | tail -40; }
[ -f model.ml ] || { echo "extraction failed"; tail -20 /verif/.build.log; exit 1; }
cd ../ocaml
if [ ! -x model_driver ] || [ ../coq/model.ml -nt model_driver ] || [ driver.ml -nt model_driver ]; then
  cp ../coq/model.ml ../coq/model.mli .
  timeout 600 ocamlfind ocamlopt -O3 -w -a model.mli model.ml driver.ml -o model_driver
fi
echo build-$status
