(* Driver for the extracted model: one request per line "<op> <json>",
   one answer per line. JSON subset: integers and nested arrays. *)
open Model

let rec pos_of_int (n : int) : positive =
  if n = 1 then XH
  else if n land 1 = 0 then XO (pos_of_int (n lsr 1))
  else XI (pos_of_int (n lsr 1))

let z_of_int (n : int) : z =
  if n = 0 then Z0 else if n > 0 then Zpos (pos_of_int n) else Zneg (pos_of_int (-n))

let ten = z_of_int 10

(* decimal string (optionally signed) -> z, any size *)
let z_of_string (s : string) : z =
  let neg = String.length s > 0 && s.[0] = '-' in
  let start = if neg then 1 else 0 in
  let len = String.length s - start in
  let v =
    if len <= 17 then z_of_int (int_of_string (String.sub s start len))
    else begin
      let acc = ref Z0 in
      for i = start to String.length s - 1 do
        acc := Z.add (Z.mul !acc ten) (z_of_int (Char.code s.[i] - 48))
      done; !acc
    end in
  if neg then Z.opp v else v

let rec pos_bits (p : positive) : int =
  match p with XH -> 1 | XO q -> 1 + pos_bits q | XI q -> 1 + pos_bits q

let rec int_of_pos (p : positive) : int =
  match p with XH -> 1 | XO q -> 2 * int_of_pos q | XI q -> 2 * int_of_pos q + 1

let rec string_of_posz (v : z) : string =
  (* v > 0 *)
  match v with
  | Zpos p when pos_bits p <= 60 -> string_of_int (int_of_pos p)
  | _ ->
    let (q, r) = Z.quotrem v ten in
    let d = (match r with Z0 -> 0 | Zpos p -> int_of_pos p | Zneg _ -> 0) in
    (match q with Z0 -> "" | _ -> string_of_posz q) ^ string_of_int d

let string_of_z (v : z) : string =
  match v with
  | Z0 -> "0"
  | Zpos _ -> string_of_posz v
  | Zneg p -> "-" ^ string_of_posz (Zpos p)

exception Parse of string

let parse (s : string) : j =
  let n = String.length s in
  let pos = ref 0 in
  let skip () = while !pos < n && (s.[!pos] = ' ' || s.[!pos] = '\t') do incr pos done in
  let rec value () : j =
    skip ();
    if !pos >= n then raise (Parse "eof");
    if s.[!pos] = '[' then begin
      incr pos; skip ();
      if !pos < n && s.[!pos] = ']' then (incr pos; JL [])
      else begin
        let items = ref [] in
        let continue = ref true in
        while !continue do
          items := value () :: !items;
          skip ();
          if !pos < n && s.[!pos] = ',' then incr pos
          else if !pos < n && s.[!pos] = ']' then (incr pos; continue := false)
          else raise (Parse "expected , or ]")
        done;
        JL (List.rev !items)
      end
    end else begin
      let st = !pos in
      if s.[!pos] = '-' then incr pos;
      while !pos < n && s.[!pos] >= '0' && s.[!pos] <= '9' do incr pos done;
      if !pos = st then raise (Parse "expected value");
      JI (z_of_string (String.sub s st (!pos - st)))
    end in
  let v = value () in
  skip ();
  if !pos <> n then raise (Parse "trailing");
  v

let rec print (b : Buffer.t) (v : j) : unit =
  match v with
  | JI z -> Buffer.add_string b (string_of_z z)
  | JL l ->
    Buffer.add_char b '[';
    List.iteri (fun i x -> if i > 0 then Buffer.add_char b ','; print b x) l;
    Buffer.add_char b ']'

let () =
  let b = Buffer.create 65536 in
  (try
    while true do
      let line = input_line stdin in
      let line = String.trim line in
      if line <> "" then begin
        let i = String.index line ' ' in
        let op = z_of_string (String.sub line 0 i) in
        let arg = parse (String.sub line (i + 1) (String.length line - i - 1)) in
        Buffer.clear b;
        print b (dispatch op arg);
        Buffer.add_char b '\n';
        print_string (Buffer.contents b); flush stdout
      end
    done
  with End_of_file -> ());
  flush stdout
